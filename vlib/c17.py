"""C17 — parsing untrusted bytes fails cleanly.

Coq: Props/C17.v (parse_fails_cleanly for every byte string / budget / type table; length_fields_validated_first).
Harness: malformed stream over generated envelopes — every single-node replacement by one representative of each CBOR
type, all truncations, random byte edits, length-field inflation, nesting towards the recursion limit; oracle on the
implementation: the exception TYPE escaping SuitEnvelopeTagged.from_cbor(x).to_obj(), wall time and peak memory of the
worker against the input size.  Model vs implementation on the same inputs (exception class / shown description), with
CBOR constructs the model does not represent triaged out of the comparison (never out of the oracle).
"""
import json
import os
import resource
import shutil
import sys
import tempfile
import time

import cbor2

import core
import cborwalk as cw
import gen_desc
import interp

RUNS = ["RunInterp"]
UNITS = ["GenTypes", "GenSpec"]
ALLOWED = ("ValueError", "SUITError")
REPRESENTATIVES = [bytes([0x00]), bytes([0x18, 0xFF]), bytes([0x20]), bytes([0x3B]) + bytes([0xFF] * 8), bytes([0x40]), bytes([0x43, 1, 2, 3]),
                   bytes([0x60]), bytes([0x63, 0x61, 0x62, 0x63]), bytes([0x80]), bytes([0x82, 0x01, 0x02]), bytes([0xA0]),
                   bytes([0xA1, 0x01, 0x02]), bytes([0xC1, 0x00]), bytes([0xD8, 0x6B, 0xA0]), bytes([0xD8, 0x60, 0x00]), bytes([0xF4]),
                   bytes([0xF5]), bytes([0xF6]), bytes([0xF7]), bytes([0xF9, 0x3C, 0x00]), bytes([0xFB, 0x3F, 0xF0, 0, 0, 0, 0, 0, 0]),
                   bytes([0xBF, 0xFF]), bytes([0x9F, 0xFF]), bytes([0x5F, 0xFF]), bytes([0xC2, 0x41, 0x01]), bytes([0xF8, 0x20])]


# ill-formed items: every head with a 1/2/4/8-byte argument cut right after the head, in the middle of the argument, and
# (for strings / arrays / maps) right after an argument that promises content
TRUNCATED = []
for _mt in range(8):
    for _ai in (24, 25, 26, 27):
        _w = 1 << (_ai - 24)
        TRUNCATED.append(bytes([(_mt << 5) | _ai]))
        if _w > 1:
            TRUNCATED.append(bytes([(_mt << 5) | _ai]) + bytes(_w - 1))
        TRUNCATED.append(bytes([(_mt << 5) | _ai]) + (3).to_bytes(_w, "big"))
TRUNCATED += [b"", bytes([0x5F]), bytes([0x9F]), bytes([0xBF, 0x01]), bytes([0x41]), bytes([0x62, 0x61]), bytes([0x82, 0x01]), bytes([0xA1, 0x01]),
              bytes([0xC2]), bytes([0xD8, 0x6B]), bytes([0x1C]), bytes([0xFC]), bytes([0xFF])]
HEAD_ONLY = [t for t in TRUNCATED if len(t) <= 1]


def impl_parse_raw(data):
    """What the property observes: the exception type escaping from_cbor(...).to_obj()."""
    return interp.impl_parse("SuitEnvelopeTagged", data)


def nodes(b, max_nodes=400):
    """(start, end) spans of every item of b, descending into byte strings that contain well-formed CBOR."""
    out = []

    def walk(buf, base, it, depth):
        if len(out) >= max_nodes or depth > 40:
            return
        out.append((base + it.start, base + it.end))
        if it.mt == 4:
            for c in it.children:
                walk(buf, base, c, depth + 1)
        elif it.mt == 5:
            for k, v in it.children:
                walk(buf, base, k, depth + 1)
                walk(buf, base, v, depth + 1)
        elif it.mt == 6:
            walk(buf, base, it.tagged, depth + 1)
        elif it.mt == 2 and it.content[1] - it.content[0] > 0:
            inner = buf[it.content[0]:it.content[1]]
            try:
                sub = cw.parse(inner)
                if sub.end == len(inner):
                    walk(inner, base + it.content[0], sub, depth + 1)
            except cw.Bad:
                pass
    try:
        walk(b, 0, cw.parse(b), 0)
    except cw.Bad:
        pass
    return out


def array_nodes(b, max_nodes=400):
    """(start, end, [child spans]) of every array item of b (descending into byte strings that contain well-formed CBOR)"""
    out = []

    def walk(buf, base, it, depth):
        if len(out) >= max_nodes or depth > 40:
            return
        if it.mt == 4:
            out.append((base + it.start, base + it.end, [(base + c.start, base + c.end) for c in it.children]))
            for c in it.children:
                walk(buf, base, c, depth + 1)
        elif it.mt == 5:
            for k, v in it.children:
                walk(buf, base, k, depth + 1)
                walk(buf, base, v, depth + 1)
        elif it.mt == 6:
            walk(buf, base, it.tagged, depth + 1)
        elif it.mt == 2 and it.content[1] - it.content[0] > 0:
            inner = buf[it.content[0]:it.content[1]]
            try:
                sub = cw.parse(inner)
                if sub.end == len(inner):
                    walk(inner, base + it.content[0], sub, depth + 1)
            except cw.Bad:
                pass
    try:
        walk(b, 0, cw.parse(b), 0)
    except cw.Bad:
        pass
    return out


def _array_head(n):
    return cbor2.dumps([0] * n)[:len(cbor2.dumps([0] * n)) - n]


def arity_edits(env):
    """every array of the envelope with one member too few (the last / the first dropped), one too many (the last repeated)
    and emptied — the other members stay valid, so the parser reaches the position that is missing or surplus"""
    out = []
    for s, e, kids in array_nodes(env):
        parts = [env[a:z] for a, z in kids]
        variants = []
        if parts:
            variants += [parts[:-1], parts[1:], parts + [parts[-1]], parts[:1]]
        if len(parts) > 2:
            variants += [parts[:-2], parts[:len(parts) // 2]]
        for v in variants:
            out.append((fix_wrappers(env, (s, e), _array_head(len(v)) + b"".join(v)), f"array of {len(parts)} members rewritten with {len(v)}"))
    return out


def mutate_node(b, span, repl):
    """Replace one node; byte-string headers of enclosing layers are NOT fixed up on purpose (that is what an attacker does)."""
    return b[:span[0]] + repl + b[span[1]:]


def fix_wrappers(b, span, repl):
    """Replace one node and re-wrap: decode with cbor2, splice at the object level is too lossy; instead rebuild every
    enclosing byte string header so that the mutated node is actually reached by the parser."""
    # enclosing byte strings: find them by re-walking
    encl = []

    def walk(buf, base, it):
        if it.mt == 2 and it.content[1] - it.content[0] > 0:
            s, e = base + it.content[0], base + it.content[1]
            if s <= span[0] and span[1] <= e:
                inner = buf[it.content[0]:it.content[1]]
                try:
                    sub = cw.parse(inner)
                    if sub.end == len(inner):
                        encl.append((base + it.start, s, e))
                        walk(inner, s, sub)
                except cw.Bad:
                    pass
        elif it.mt == 4:
            for c in it.children:
                walk(buf, base, c)
        elif it.mt == 5:
            for k, v in it.children:
                walk(buf, base, k)
                walk(buf, base, v)
        elif it.mt == 6:
            walk(buf, base, it.tagged)
    try:
        walk(b, 0, cw.parse(b))
    except cw.Bad:
        return mutate_node(b, span, repl)
    out = b[:span[0]] + repl + b[span[1]:]
    delta = len(repl) - (span[1] - span[0])
    for hs, cs, ce in sorted(encl, key=lambda x: -x[0]):     # innermost first has the largest start
        n = (ce - cs) + delta
        head = cbor2.dumps(b"\x00" * 0)[:0]
        head = _bstr_head(n)
        out = out[:hs] + head + out[cs:]
        # later (outer) wrappers see the additional growth of this head
        delta += len(head) - (cs - hs)
    return out


def _bstr_head(n):
    if n < 24:
        return bytes([0x40 + n])
    if n < 256:
        return bytes([0x58, n])
    if n < 65536:
        return bytes([0x59]) + n.to_bytes(2, "big")
    return bytes([0x5A]) + n.to_bytes(4, "big")


def peak_rss_kb():
    return resource.getrusage(resource.RUSAGE_SELF).ru_maxrss


def run(tier, seed):
    ck = core.Check("C17", tier, seed, runs=RUNS, units=UNITS)
    ck.assumptions = ["time and memory proportional to the input are observed on the implementation only (the model shows termination "
                      "and where the one explicit length check sits)",
                      "the recursion budget of the model is a fuel parameter; Python's recursion limit is the known finding F6",
                      "the JSON oracle (json.dumps of a shown map key) raises nothing but what the theorem's premise allows"]
    ck.prepare()
    tmp = tempfile.mkdtemp(prefix="c17-")
    try:
        failing = []
        failing += corpus(ck)
        failing += class_stream(ck)
        failing += malformed_stream(ck, tmp, 10 if not ck.deep else 60)
        failing += nesting_stream(ck)
        failing += scaling_stream(ck)
        failing += scan_stream(ck)
        failing += sharing_stream(ck)
        failing += command_stream(ck, tmp)
        ck.cov["rule"] = ("for each of N generated envelopes: every node (descending through bstr-wrapped layers) replaced by 26 "
                          "representatives of the CBOR types (raw splice and with the enclosing byte-string headers rebuilt), every "
                          "truncation (sampled when long), random byte edits, length-field inflation of every head; nesting of "
                          "run-sequence / try-each / arrays / tags up to and beyond the recursion limit (a sweep across the depths where the stack runs out); wide inputs (each collection "
                          "of the envelope with n and 4n members, time ratio). Oracle: exception type of "
                          "SuitEnvelopeTagged.from_cbor(x).to_obj() in {ValueError, SUITError}, wall time and RSS growth per input. "
                          "non-trivial = input that is not rejected by the very first check (tag / top-level type); distinct by input bytes")
        return ck.decide(failing, search=lambda: malformed_stream(ck, tmp, 40))
    finally:
        shutil.rmtree(tmp, ignore_errors=True)


def observe(ck, stream, data, fails, mres=None, origin=""):
    t0 = time.perf_counter()
    r0 = peak_rss_kb()
    r = interp.run_impl(impl_parse_raw, data)
    dt = time.perf_counter() - t0
    grew = peak_rss_kb() - r0
    nontrivial = not (r[0] == "exn" and len(data) < 3)
    ck.count(stream, data, nontrivial=nontrivial, sample={"bytes": data.hex()[:60], "len": len(data), "origin": origin,
                                                          "outcome": r[1] if r[0] == "exn" else "parsed"})
    ck.cov.setdefault("outcomes", {})
    key = r[1] if r[0] == "exn" else "parsed"
    ck.cov["outcomes"][key] = ck.cov["outcomes"].get(key, 0) + 1
    inp = {"bytes": data.hex(), "origin": origin}
    if r[0] == "exn" and r[1] not in ALLOWED:
        k = None
        if r[1] == "RecursionLimit":
            k = ck.is_known("recursion_limit", "")
        if k is not None:
            ck.known_finding(k, k["what_fails"] + f" [replayed: {len(data)} bytes -> RecursionError]")
        else:
            fails.append({"input": inp, "observed": f"{r[1]} escaped from from_cbor(...).to_obj()", "expected": "ValueError or SUITError"})
    # time / memory: generous linear bounds (a hang or a huge allocation is orders of magnitude beyond them)
    if dt > 2.0 + 0.002 * len(data):
        k = ck.is_known("quadratic_logging", "")
        if k is not None and deep_nesting(data) > 120:
            ck.known_finding(k, k["what_fails"] + f" [replayed: {len(data)} bytes took {dt:.1f} s]")
        else:
            fails.append({"input": inp, "observed": f"parsing took {dt:.2f} s for {len(data)} bytes", "expected": "time proportional to the input size"})
    if grew > 200_000 + 100 * len(data) // 1024:
        fails.append({"input": inp, "observed": f"peak RSS grew by {grew} kB for {len(data)} bytes", "expected": "memory proportional to the input size"})
    if mres is not None:
        mm = mres if mres[0] != "ok" else ("ok", mres[1])
        same = (mm[0] == r[0]) and (mm[1] == r[1])
        if not same and not interp.unmodelled(data) and mm[1] != "RecursionLimit" and r[1] != "RecursionLimit":
            if not any(b[1] == "Interp.from_cbor/to_obj (malformed)" for b in ck.broken):
                ck.broken.append(("corr", "Interp.from_cbor/to_obj (malformed)",
                                  f"input {data.hex()[:300]}: model {str(mm)[:200]} implementation {str(r)[:200]}"))
        elif not same:
            ck.cov["triaged_unmodelled"] = ck.cov.get("triaged_unmodelled", 0) + 1


def deep_nesting(data):
    """structural nesting depth of the input: arrays / maps / tags, descending into byte strings that hold well-formed CBOR
    (iterative; an input that cannot be walked counts as depth 0)"""
    best = 0
    try:
        stack = [(data, cw.parse(data), 1)]
    except (cw.Bad, RecursionError):
        # not walkable as a whole (e.g. nested beyond the walker's own recursion): count the run-sequence wrappers directly
        return data.count(bytes([0x82, 0x18, 0x20]))
    seen = 0
    while stack and seen < 20000:
        buf, it, d = stack.pop()
        seen += 1
        best = max(best, d)
        if it.mt == 4:
            stack += [(buf, c, d + 1) for c in it.children]
        elif it.mt == 5:
            for k, v in it.children:
                stack += [(buf, k, d + 1), (buf, v, d + 1)]
        elif it.mt == 6:
            stack.append((buf, it.tagged, d + 1))
        elif it.mt == 2 and it.content[1] - it.content[0] > 0:
            inner = buf[it.content[0]:it.content[1]]
            try:
                sub = cw.parse(inner)
                if sub.end == len(inner):
                    stack.append((inner, sub, d + 1))
            except (cw.Bad, RecursionError):
                pass
    return best


def corpus(ck):
    """Regression witnesses of the fixed finding F5 (four internal errors) — a fixed entry suppresses nothing."""
    fails = []
    w = [bytes.fromhex("d86ba1025382"),                                   # wrapper tuple shorter than its fixed fields
         cbor2.dumps(cbor2.CBORTag(107, {3: cbor2.dumps({3: cbor2.dumps({4: cbor2.dumps([1, "x"])})})})),     # bitfield not an int
         cbor2.dumps(cbor2.CBORTag(107, {3: cbor2.dumps({3: cbor2.dumps({99: 0})})})),                          # unknown key, no embedded
         cbor2.dumps(cbor2.CBORTag(107, {3: cbor2.dumps({7: cbor2.dumps([20, {19: bytes.fromhex("d86000")}])})}))]   # tag 96 over a non-list
    mres = [interp.obj_result(x) for x in interp.model_batch(ck, [["parse", "SuitEnvelopeTagged", d, []] for d in w])]
    for d, m in zip(w, mres):
        observe(ck, "corpus", d, fails, m, origin="F5 witness")
    return fails


def malformed_stream(ck, tmp, n_env):
    fails, inputs = [], []
    rng = ck.rng
    for i in range(n_env):
        d = os.path.join(tmp, f"m{ck.cov['evaluations']}_{i}")
        os.makedirs(d, exist_ok=True)
        g = gen_desc.Gen(rng, d, max_depth=1)
        desc = g.envelope()
        for p, c in g.files.items():
            with open(p, "wb") as fh:
                fh.write(c)
        r = interp.run_impl(interp.impl_create, desc)
        if r[0] != "ok":
            continue
        env = r[1]
        spans = nodes(env)
        # single-node replacement
        picked = spans if ck.deep else rng.sample(spans, min(len(spans), 25))
        for sp in picked:
            reps = (REPRESENTATIVES + rng.sample(TRUNCATED, 8)) if ck.deep else rng.sample(REPRESENTATIVES, 4) + rng.sample(TRUNCATED, 2)
            for rep in reps:
                inputs.append((fix_wrappers(env, sp, rep), "node replaced (wrappers rebuilt)"))
                if rng.random() < 0.3:
                    inputs.append((mutate_node(env, sp, rep), "node replaced (raw splice)"))
        # arity: arrays with a member too few / too many
        ar = arity_edits(env)
        inputs += ar if ck.deep else rng.sample(ar, min(len(ar), 60))
        # truncations
        cuts = range(len(env)) if (ck.deep and len(env) < 600) else sorted(set(rng.sample(range(len(env)), min(len(env), 40))))
        for c in cuts:
            inputs.append((env[:c], "truncated"))
        # random byte edits
        for _ in range(30 if not ck.deep else 200):
            b = bytearray(env)
            for _ in range(rng.choice([1, 1, 2, 4])):
                b[rng.randrange(len(b))] = rng.randrange(256)
            inputs.append((bytes(b), "byte edit"))
        # length-field inflation: every head gets a huge declared length / count
        for sp in (spans if ck.deep else rng.sample(spans, min(len(spans), 15))):
            ib = env[sp[0]]
            mt = ib >> 5
            if mt in (2, 3, 4, 5):
                for ai, val in ((26, 0x7FFFFFFF), (27, 2 ** 62), (25, 0xFFFF)):
                    w = 1 << (ai - 24)
                    inputs.append((env[:sp[0]] + bytes([(mt << 5) | ai]) + val.to_bytes(w, "big") + env[sp[0] + 1:], "length inflated"))
    mres = [interp.obj_result(x) for x in interp.model_batch(ck, [["parse", "SuitEnvelopeTagged", d, []] for d, _ in inputs])]
    for (d, origin), m in zip(inputs, mres):
        observe(ck, "malformed", d, fails, m, origin)
        if len(fails) > 20:
            break
    return fails


def class_stream(ck):
    """Every node class of the grammar x every representative (raw and as the content of a byte string): the type
    checks each from_cbor performs before structural access (complete enumeration)."""
    import c02
    fails, inputs = [], []
    for n in c02.node_classes():
        for rep in REPRESENTATIVES + (TRUNCATED if ck.deep else HEAD_ONLY):
            inputs.append((n, rep))
            inputs.append((n, cbor2.dumps(rep)))
    # every one-byte input, raw and as the content of each byte-string-wrapped envelope member
    for v in range(256):
        one = bytes([v])
        inputs.append(("SuitEnvelopeTagged", one))
        inputs.append(("SuitEnvelopeTagged", cbor2.dumps(cbor2.CBORTag(107, {2: one, 3: cbor2.dumps({1: 1, 2: 1})}))))
        inputs.append(("SuitEnvelopeTagged", cbor2.dumps(cbor2.CBORTag(107, {2: cbor2.dumps([cbor2.dumps([-16, bytes(32)])]), 3: one}))))
        inputs.append(("SuitEnvelopeTagged", cbor2.dumps(cbor2.CBORTag(107, {2: cbor2.dumps([cbor2.dumps([-16, bytes(32)])]),
                                                                             3: cbor2.dumps({1: 1, 2: 1, 3: one, 7: one})}))))
    mres = [interp.obj_result(x) for x in interp.model_batch(ck, [["parse", n, d, []] for n, d in inputs])]
    for (n, d), m in zip(inputs, mres):
        r = interp.run_impl(interp.impl_parse, n, d)
        ck.count("class", (n, d), nontrivial=True, sample={"class": n, "bytes": d.hex()})
        if r[0] == "exn" and r[1] not in ALLOWED:
            fails.append({"input": {"class": n, "bytes": d.hex()}, "observed": f"{r[1]} escaped from {n}.from_cbor(...).to_obj()",
                          "expected": "ValueError or SUITError"})
        same = (m[0] == r[0]) and (m[1] == r[1])
        if not same and not interp.unmodelled(d) and m[1] != "RecursionLimit":
            if not any(b[1] == "Interp.from_cbor/to_obj (class level)" for b in ck.broken):
                ck.broken.append(("corr", "Interp.from_cbor/to_obj (class level)", f"{n} {d.hex()}: model {str(m)[:160]} implementation {str(r)[:160]}"))
    ck.cov["exhaustive_class_stream"] = True
    return fails


def _tag_head(n, width=1):
    """head of tag n written with a 1-, 2-, 4- or 8-byte argument (every width is well-formed CBOR)"""
    return bytes([0xC0 | {1: 24, 2: 25, 4: 26, 8: 27}[width]]) + n.to_bytes(width, "big")


def share_bomb(depth, width=2, tag_width=1):
    """an array whose i-th element is marked shareable (tag 28) and holds `width` references (tag 29) to the previous one:
    about 9 bytes per level, 2^depth leaves once every reference is expanded"""
    t28, t29 = _tag_head(28, tag_width), _tag_head(29, tag_width)
    items = [t28 + bytes([0x80])]
    for i in range(depth):
        items.append(t28 + bytes([0x80 + width]) + (t29 + cbor2.dumps(i)) * width)
    return cbor2.dumps([0] * len(items))[:-len(items)] + b"".join(items)


def stringref_bomb(n):
    """a string-reference namespace (tag 256) holding one string of n/2 bytes and n/6 references (tag 25) to it"""
    refs = n // 6
    return bytes([0xD9, 0x01, 0x00]) + cbor2.dumps([0] * (refs + 1))[:-(refs + 1)] + cbor2.dumps(b"x" * (n // 2)) + bytes([0xD8, 25, 0x00]) * refs


def stringref_bomb_wide(n):
    """the same with the tag numbers written with 4-byte arguments"""
    refs = n // 9
    return _tag_head(256, 4) + cbor2.dumps([0] * (refs + 1))[:-(refs + 1)] + cbor2.dumps(b"x" * (n // 2)) + (_tag_head(25, 4) + bytes([0x00])) * refs


def sharing_stream(ck):
    """CBOR value sharing / string references: short inputs whose decoded form refers to one object many times.  Re-serialising
    such a value expands every reference; the parser must answer within time and memory proportional to the INPUT."""
    fails = []
    auth = cbor2.dumps(cbor2.dumps([cbor2.dumps([-16, bytes(32)])]))
    for nm, x in ([(f"value sharing nested {d} deep", share_bomb(d)) for d in ((6, 12, 17, 19) if not ck.deep else (6, 12, 17, 19, 20))]
                  + [(f"value sharing nested 18 deep, tag numbers written with {w}-byte arguments", share_bomb(18, tag_width=w)) for w in (2, 4, 8)]
                  + [(f"string references, {n} bytes", stringref_bomb(n)) for n in ((600, 6000, 36000) if not ck.deep else (600, 6000, 36000, 50000))]
                  + [("string references, 36000 bytes, tag numbers written with 4-byte arguments", stringref_bomb_wide(36000))]):
        for where, data in (("as the manifest member", bytes([0xD8, 107, 0xA2, 0x02]) + auth + bytes([0x03]) + x),
                            ("as the authentication member", bytes([0xD8, 107, 0xA1, 0x02]) + x),
                            ("inside the wrapped manifest", bytes([0xD8, 107, 0xA2, 0x02]) + auth + bytes([0x03]) + cbor2.dumps(bytes([0xA3, 0x01, 0x01, 0x02, 0x01, 0x03]) + x)),
                            ("as the whole input", x)):
            observe(ck, "sharing", data, fails, None, origin=f"{nm}, {where}")
            if fails:
                return fails
    # the same structure as a map KEY: the decoder builds tuples there and hashes them, every reference again (F14)
    for d in ((12, 29) if not ck.deep else (12, 24, 29, 33)):
        x = share_bomb(d)
        for where, data in (("as a key of the envelope map", bytes([0xD8, 107, 0xA1]) + x + bytes([0x00])),
                            ("as a key of the wrapped manifest", bytes([0xD8, 107, 0xA2, 0x02]) + auth + bytes([0x03]) + cbor2.dumps(bytes([0xA1]) + x + bytes([0x00]))),
                            ("as a key inside an array of the whole input", bytes([0x81, 0xA1]) + x + bytes([0x00]))):
            observe(ck, "sharing", data, fails, None, origin=f"value sharing nested {d} deep, {where}")
            if fails:
                return fails
    return fails


def nested_run_sequences(depth):
    seq = cbor2.dumps([12, 0])
    for _ in range(depth):
        seq = cbor2.dumps([32, seq])
    return cbor2.dumps(cbor2.CBORTag(107, {2: cbor2.dumps([cbor2.dumps([-16, bytes(32)])]), 3: cbor2.dumps({1: 1, 2: 1, 7: seq})}))


def _envelope(members=None, man=None, auth=None):
    man = man or {1: 1, 2: 1, 3: cbor2.dumps({2: [[b"M"]]})}
    m = {2: auth or cbor2.dumps([cbor2.dumps([-16, bytes(32)])]), 3: cbor2.dumps(man)}
    m.update(members or {})
    return cbor2.dumps(cbor2.CBORTag(107, m))


WIDE = {
    "integrated payloads": lambda n: _envelope({"#%d" % i: b"" for i in range(n)}),
    "components": lambda n: _envelope(man={1: 1, 2: 1, 3: cbor2.dumps({2: [[b"M", i] for i in range(n)]})}),
    "component identifier parts": lambda n: _envelope(man={1: 1, 2: 1, 3: cbor2.dumps({2: [[b"M"] + [cbor2.dumps(i) for i in range(n)]]})}),
    "commands": lambda n: _envelope(man={1: 1, 2: 1, 3: cbor2.dumps({2: [[b"M"]]}), 7: cbor2.dumps([12, 0] * n)}),
    "authentication blocks": lambda n: _envelope(auth=cbor2.dumps([cbor2.dumps([-16, bytes(32)])] + [cbor2.dumps(cbor2.CBORTag(18, [cbor2.dumps({1: -8}), {}, None, bytes(64)]))] * (n // 8))),
    "dependencies": lambda n: _envelope(man={1: 1, 2: 1, 3: cbor2.dumps({1: {i: {} for i in range(n)}, 2: [[b"M", i] for i in range(n)]})}),
    "text languages": lambda n: _envelope(man={1: 1, 2: 1, 3: cbor2.dumps({2: [[b"M"]]}), 23: cbor2.dumps({"l%d" % i: {1: "x"} for i in range(n)})}),
    "parameter overrides": lambda n: _envelope(man={1: 1, 2: 1, 3: cbor2.dumps({2: [[b"M"]]}), 7: cbor2.dumps([20, {14: 1}] * n)}),
    # heads written with 1-, 2- and 4-byte arguments outside string content, very many of them (the scan that runs before the decoder
    # reads every one): 25 times the members of the other collections
    "integers with long heads": lambda n: cbor2.dumps(cbor2.CBORTag(107, [255, 65535, 70000] * (8 * n))),
    "parameter values with long heads": lambda n: _envelope(man={1: 1, 2: 1, 3: cbor2.dumps({2: [[b"M"]]}), 7: cbor2.dumps([20, {14: 300}] * (4 * n))}),
    # semantic tags whose decoding is not linear in cbor2 / the standard library: a decimal fraction or bigfloat with a bignum mantissa
    # (as an envelope map key), a rational, a MIME message with one long header (F24)
    "decimal fraction mantissa bytes": lambda n: b"\xd8\x6b\xa1\xc4\x82\x00\xc2" + bytes([0x5A]) + (10 * n).to_bytes(4, "big") + b"\xff" * (10 * n) + b"\x00",
    "bigfloat mantissa bytes": lambda n: b"\xd8\x6b\xa1\xc5\x82\x00\xc2" + bytes([0x5A]) + (10 * n).to_bytes(4, "big") + b"\xff" * (10 * n) + b"\x00",
    "rational numerator bytes": lambda n: b"\xd8\x6b\xa1\xd8\x1e\x82\xc2" + bytes([0x5A]) + (10 * n).to_bytes(4, "big") + b"\xff" * (10 * n) + b"\x03\x00",
    "MIME header bytes": lambda n: b"\xd8\x24" + bytes([0x7A]) + (2 * n + 8).to_bytes(4, "big") + b"A: " + b"b " * n + b"\r\n\r\nx",
    # map keys that all have ONE hash value (bignums that are multiples of 2**61 - 1): known finding F25
    "colliding bignum keys": lambda n: b"\xd8\x6b\xba" + n.to_bytes(4, "big") + b"".join(b"\xc2\x4a" + (k * (2 ** 61 - 1)).to_bytes(10, "big") + b"\x00" for k in range(8, n + 8)),
    "try-each alternatives": lambda n: _envelope(man={1: 1, 2: 1, 3: cbor2.dumps({2: [[b"M"]]}), 7: cbor2.dumps([15, [cbor2.dumps([12, 0])] * n])}),
}


def _best_time(data, runs=3):
    best, res = None, None
    for _ in range(runs):
        t0 = time.perf_counter()
        res = interp.run_impl(impl_parse_raw, data)
        dt = time.perf_counter() - t0
        best = dt if best is None or dt < best else best
    return best, res


def scaling_stream(ck):
    """WIDE inputs: one collection of the envelope with n and with 4n members.  Time proportional to the input means that four times
    the members cost about four times the time; a per-member cost that grows with the members already read shows as a ratio near 16.
    Judged on the best of three runs each, and only when the larger run is long enough to be measured (0.5 s)."""
    fails = []
    n = 4000 if not ck.deep else 8000
    for what, mk in WIDE.items():
        small, big = mk(n), mk(4 * n)
        t1, r1 = _best_time(small)
        t4, r4 = _best_time(big)
        ck.count("scaling", (what, n), nontrivial=r4[0] == "ok", sample={"collection": what, "members": [n, 4 * n], "bytes": [len(small), len(big)],
                                                                           "seconds": [round(t1, 3), round(t4, 3)], "outcome": r4[1] if r4[0] == "exn" else "parsed"})
        if r4[0] == "exn" and r4[1] not in ALLOWED:
            fails.append({"input": {"wide": what, "members": 4 * n}, "observed": f"{r4[1]} escaped from from_cbor(...).to_obj()", "expected": "ValueError or SUITError"})
        elif t4 > 0.5 and t4 > 9 * t1 and what == "colliding bignum keys" and ck.is_known("colliding_bignum_keys", "") is not None:
            k = ck.is_known("colliding_bignum_keys", "")
            ck.known_finding(k, k["what_fails"] + f" [replayed: {4 * n} keys ({len(big)} bytes) took {t4:.2f} s, {n} took {t1:.2f} s]")
        elif t4 > 0.5 and t4 > 9 * t1:
            fails.append({"input": {"wide": what, "members": 4 * n},
                          "observed": f"{4 * n} {what} ({len(big)} bytes) took {t4:.2f} s, {n} ({len(small)} bytes) took {t1:.2f} s: {t4 / t1:.0f} times the time for 4 times the input",
                          "expected": "time proportional to the input size"})
    return fails


def impl_scan(data):
    """SuitObject.reject_sharing_tags: True when the data would be handed to the decoder, False on its ValueError"""
    from suit_generator.suit.types.common import SuitObject
    try:
        SuitObject.reject_sharing_tags(data)
        return True
    except ValueError:
        return False


def scan_stream(ck):
    """The scan of item heads that refuses the sharing tags before decoding (fix 76ae410) against its model Cbor/TagScan.v, byte
    for byte: bombs in every tag-head width, tag heads spliced into envelopes at every kind of position (in front of an item, inside
    string content, behind the first item, cut short), indefinite-length strings / arrays / maps, reserved and truncated heads,
    token soups.  An exception other than ValueError is a violation; a different verdict breaks the correspondence."""
    rng = ck.rng
    fails = []
    heads = [bytes([0xD8, 25]), bytes([0xD8, 28]), bytes([0xD8, 29]), bytes([0xD9, 0x01, 0x00]), bytes([0xD9, 0, 28]), bytes([0xDA, 0, 0, 0, 29]),
             bytes([0xDB] + [0] * 7 + [25]), bytes([0xDA, 0, 0, 1, 0]), bytes([0xD8, 24]), bytes([0xC4]), bytes([0xC5]), bytes([0xD8, 30]), bytes([0xD8, 35]),
             bytes([0xD8, 36]), bytes([0xD9, 0, 4]), bytes([0xC2]), bytes([0xC1]), bytes([0xD8, 30]), bytes([0xD9, 0x01, 0x01]), bytes([0xC6]), bytes([0xD8, 107])]
    inputs = [share_bomb(d, tag_width=w) for d in (1, 3) for w in (1, 2, 4, 8)] + [stringref_bomb(60), stringref_bomb_wide(90)]
    inputs += [b"", b"\xd8", b"\xd9\x1c", b"\xd9\x00", b"\xda\x00\x00\x00", b"\xdb\x00\x00\x00\x00\x00\x00\x00", b"\xff", b"\x9f\xd8\x1c\x00\xff",
               b"\x5f\x42\xd8\x1c\xff\xd8\x1c\x00", b"\x7f\x62\xd8\x1c\xff", b"\x7f\x62\xd8\x1c\xff\xd8\x1d\x00", b"\xbf\xd8\x1d\x00\x00\xff",
               b"\xbf\x00\xd8\x1d\x00\xff", b"\x82\x00", b"\x81\x00\xd8\x1c\x00", b"\x00\xd8\x1c\x00", b"\x44\xd8\x1c\xd8\x1d", b"\x44\xd8\x1c\xd8\x1d\xd8\x1c",
               b"\x5b" + b"\xff" * 8 + b"\xd8\x1c", b"\x9b" + b"\xff" * 8 + b"\xd8\x1c\x00", b"\xbb" + b"\xff" * 8 + b"\x00\xd8\x1d\x00", b"\xc0\xd8\x1c\x00",
               b"\xf8\x1c", b"\xf9\xd8\x1c", b"\xfa\xd8\x1c\xd8\x1c", b"\xfb" + b"\xd8\x1c" * 4, b"\xfb" + b"\xd8\x1c" * 4 + b"\xd8\x1c", b"\x1c", b"\xdc\x00", b"\xdf\xd8\x1c",
               b"\x1f", b"\x3f", b"\xdf", b"\xfc", b"\x80\xd8\x1c\x00", b"\xa0\xd8\x1c\x00", b"\x81\x80\xd8\x1c", b"\x82\x80\xd8\x1c\x00", b"\x82\xa0\xd8\x1d\x00",
               b"\x9f\xff\xd8\x1c\x00", b"\x82\x9f\xff\xd8\x1c\x00", b"\x82\x5f\xff\xd8\x1c\x00", b"\xa1\x5f\xff\xd8\x19\x00", b"\x9f\x9f\xff\xd8\x1c\x00\xff",
               b"\xd8\x6b\xa1\xff\x00", b"\x81\xff", b"\xbf\xff\xd8\x1c\x00", b"\xc1\xc2\xc3\xd8\x1c\x00", b"\x18", b"\x38", b"\x58\x02\xd8", b"\x78\x01", b"\x98\x01\xd8\x1c\x00"]
    envs = [_envelope(), _envelope({"#a": b"\xd8\x1c\x00", "#b": b""}), nested_run_sequences(4), nested_try_each(3), nested_dependencies(3),
            cbor2.dumps(cbor2.CBORTag(107, {2: cbor2.dumps([cbor2.dumps([-16, bytes(32)]), cbor2.dumps(cbor2.CBORTag(18, [b"\xa1\x01\x26", {}, None, bytes(64)]))]),
                                              3: cbor2.dumps({1: 1, 2: 2 ** 40, 3: cbor2.dumps({2: [[b"M", cbor2.dumps(1), cbor2.dumps("x" * 300)]]}), 23: [-16, bytes(32)]}),
                                              23: cbor2.dumps({"en": {1: "d" * 70000}})}))]
    inputs += envs
    for env in envs:
        for _ in range(40 if not ck.deep else 400):
            pos, h = rng.randrange(len(env) + 1), rng.choice(heads)
            x = env[:pos] + h + env[pos:]
            inputs.append(x)
            if rng.random() < 0.3:
                inputs.append(x[:rng.randrange(len(x) + 1)])
            if rng.random() < 0.3 and len(env) > 2:
                q = rng.randrange(len(env))
                inputs.append(env[:q] + bytes([rng.choice([0x5F, 0x7F, 0x9F, 0xBF, 0xFF, 0xD8, 0x1C, 0x1D, 0x19, env[q] ^ 0x20, env[q] ^ 0x1F])]) + env[q + 1:])
    tokens = [b"\xd8\x1c", b"\xd8\x1d", b"\xd8\x19", b"\xd9\x01\x00", b"\x81", b"\x82", b"\xa1", b"\x9f", b"\xbf", b"\x5f", b"\x7f", b"\xff", b"\x00", b"\x41\x00", b"\x40", b"\x60",
              b"\x18", b"\xd8", b"\x1c", b"\xc1", b"\xf6", b"\xf9\x00\x00", b"\x42\xd8\x1c", b"\x80", b"\xa0", b"\x98\x02", b"\xb8\x01", b"\xd9\x00\x1d"]
    for _ in range(300 if not ck.deep else 5000):
        inputs.append(b"".join(rng.choice(tokens) if rng.random() < 0.85 else bytes([rng.randrange(256)]) for _ in range(rng.randrange(1, 14))))
    inputs = list(dict.fromkeys(inputs))
    mres = ck.model([["scan_tags", x] for x in inputs])
    for x, mr in zip(inputs, mres):
        ir = core.Check.impl(impl_scan, x)
        ck.count("scan", x, nontrivial=len(x) > 1, sample={"bytes": x.hex()[:60], "len": len(x), "verdict": ir[1] if ir[0] == "ok" else "raised " + str(ir[1])})
        ck.cov.setdefault("scan_verdicts", {"accepted": 0, "refused": 0})
        if ir[0] == "ok":
            ck.cov["scan_verdicts"]["accepted" if ir[1] else "refused"] += 1
        if ir[0] != "ok":
            fails.append({"input": {"scan": x.hex()}, "observed": f"{ir[1]} escaped from SuitObject.reject_sharing_tags", "expected": "returns, or ValueError"})
        elif (mr[0], mr[1]) != ("ok", ir[1]) and not any(b[1] == "TagScan.scan_tags" for b in ck.broken):
            ck.broken.append(("corr", "TagScan.scan_tags", f"input {x.hex()[:200]}: model {mr} implementation {'accepts' if ir[1] else 'refuses'}"))
    return fails[:3]


def nested_try_each(depth):
    seq = cbor2.dumps([12, 0])
    for _ in range(depth):
        seq = cbor2.dumps([15, [seq, cbor2.dumps([])]])
    return cbor2.dumps(cbor2.CBORTag(107, {2: cbor2.dumps([cbor2.dumps([-16, bytes(32)])]), 3: cbor2.dumps({1: 1, 2: 1, 7: seq})}))


def nesting_stream(ck):
    fails = []
    # at the depths where the stack runs out the C encoder of cbor2 reports RecursionErrors it cannot propagate ("Exception ignored in")
    # through sys.unraisablehook: counted, not printed
    unraisable = []

    def _hook(u):
        try:
            unraisable.append(1)
        except BaseException:  # noqa: BLE001 - the hook itself runs at the bottom of the stack
            pass
    sys.unraisablehook = _hook
    try:
        return _nesting_stream(ck, fails)
    finally:
        sys.unraisablehook = sys.__unraisablehook__
        ck.cov["unraisable_in_encoder"] = len(unraisable)


def _nesting_stream(ck, fails):
    for depth in ([1, 5, 20, 60] if not ck.deep else [1, 5, 20, 60, 100, 140]):
        observe(ck, "nesting", nested_run_sequences(depth), fails, None, origin=f"run-sequence nested {depth} deep")
        observe(ck, "nesting", nested_try_each(depth), fails, None, origin=f"try-each nested {depth} deep")
    # a sweep across the depths at which the interpreter's stack runs out: reading and showing use different numbers of frames per
    # level, so there is a band of depths that the reader still accepts and the dump does not
    for depth in range(66, 420, 9 if not ck.deep else 2):
        for mk, what in ((nested_run_sequences, "run-sequence"), (nested_try_each, "try-each")):
            before = len(fails)
            observe(ck, "nesting", mk(depth), fails, None, origin=f"{what} nested {depth} deep")
            if len(fails) > before:
                break
        if len(fails) >= 3:
            break
    # the same in a fresh interpreter WITHOUT the harness's logger stub (F6b, fixed: log_call walked the whole stack on every call)
    import subprocess
    prog = ("import sys,time;sys.path.insert(0,sys.argv[1]);from suit_generator.suit.envelope import SuitEnvelopeTagged;"
            "d=bytes.fromhex(sys.argv[2]);t=time.perf_counter()\n"
            "try:\n SuitEnvelopeTagged.from_cbor(d).to_obj()\nexcept Exception as e:\n print('rejected' if isinstance(e, ValueError) or type(e).__name__ == 'SUITError' else 'E ' + type(e).__name__)\n"
            "print('T',time.perf_counter()-t)")
    for depth in ((120, 170, 230, 300) if not ck.deep else (100, 120, 150, 165, 180, 200, 230, 260, 300, 330)):
        data = nested_run_sequences(depth)
        p = subprocess.run([core.PY, "-c", prog, core.REPO, data.hex()], capture_output=True, text=True, env=dict(os.environ, PYTHONPATH=core.REPO))
        took = [float(x.split()[1]) for x in p.stdout.splitlines() if x.startswith("T ")]
        ck.count("nesting", ("unstubbed", depth), nontrivial=True, sample={"origin": f"run-sequence nested {depth} deep, fresh interpreter, unmodified logger", "len": len(data)})
        esc = [x.split()[1] for x in p.stdout.splitlines() if x.startswith("E ")]
        if esc:
            fails.append({"input": {"bytes": data.hex(), "origin": f"run-sequence nested {depth} deep, parsed in a fresh interpreter (logger not stubbed)"},
                          "observed": f"{esc[0]} escaped from from_cbor(...).to_obj()", "expected": "ValueError or SUITError"})
        elif not took or took[0] > 2.0 + 0.002 * len(data):
            fails.append({"input": {"bytes": data.hex(), "origin": f"run-sequence nested {depth} deep, parsed in a fresh interpreter (logger not stubbed)"},
                          "observed": f"parsing took {took[0]:.2f} s for {len(data)} bytes" if took else f"no result: {p.stderr[-200:]}",
                          "expected": "time proportional to the input size"})
    # deep nesting around a BIG leaf: every level keeps copies of the bytes below it (known finding F26); judged in a fresh interpreter so
    # that the peak of this one probe is measured
    prog2 = ("import sys,resource;sys.path.insert(0,sys.argv[1]);import cbor2;from suit_generator.suit.envelope import SuitEnvelopeTagged\n"
             "seq=cbor2.dumps([12,0,20,{21:'x'*1000000}])\n"
             "for _ in range(150): seq=cbor2.dumps([32,seq])\n"
             "d=cbor2.dumps(cbor2.CBORTag(107,{2:cbor2.dumps([cbor2.dumps([-16,bytes(32)])]),3:cbor2.dumps({1:1,2:1,7:seq})}))\n"
             "r0=resource.getrusage(resource.RUSAGE_SELF).ru_maxrss\n"
             "try:\n SuitEnvelopeTagged.from_cbor(d).to_obj()\nexcept Exception as e:\n print('E',type(e).__name__)\n"
             "print('M',len(d),resource.getrusage(resource.RUSAGE_SELF).ru_maxrss-r0)")
    p2 = subprocess.run([core.PY, "-c", prog2, core.REPO], capture_output=True, text=True, env=dict(os.environ, PYTHONPATH=core.REPO))
    mline = [x.split() for x in p2.stdout.splitlines() if x.startswith("M ")]
    ck.count("nesting", ("big-leaf", 150), nontrivial=True, sample={"origin": "run-sequence nested 150 deep around a 1 MB text, fresh interpreter", "result": p2.stdout[-80:]})
    if mline:
        size, grew_kb = int(mline[0][1]), int(mline[0][2])
        if grew_kb * 1024 > 40 * size:
            kf = ck.is_known("deep_nesting_big_leaf", "")
            if kf is not None:
                ck.known_finding(kf, kf["what_fails"] + f" [replayed: peak RSS grew by {grew_kb // 1024} MB for {size} bytes]")
            else:
                fails.append({"input": {"origin": "run-sequence nested 150 deep around a 1 MB suit-parameter-uri", "bytes": ""},
                              "observed": f"peak RSS grew by {grew_kb} kB for {size} bytes", "expected": "memory proportional to the input size"})
    # beyond the interpreter's recursion limit: known finding F6
    observe(ck, "nesting", nested_run_sequences(400), fails, None, origin="run-sequence nested 400 deep")
    # plain CBOR nesting (arrays / tags) handled by the decoder itself
    for depth in (50, 500, 5000):
        observe(ck, "nesting", b"\x81" * depth + b"\x00", fails, None, origin=f"array nested {depth} deep")
        observe(ck, "nesting", b"\xd8\x6b" * depth + b"\xa0", fails, None, origin=f"tag nested {depth} deep")
    return fails



def nested_dependencies(depth):
    """an envelope whose integrated dependency is an envelope whose integrated dependency is ... (depth levels), built by hand"""
    import hashlib
    env = None
    for k in range(depth + 1):
        man = cbor2.dumps({1: 1, 2: k, 3: cbor2.dumps({2: [[b"M", k]]})})
        members = {2: cbor2.dumps([cbor2.dumps([-16, hashlib.sha256(cbor2.dumps(man)).digest()])]), 3: man}
        if env is not None:
            members["#d"] = env
        env = cbor2.dumps(cbor2.CBORTag(107, members))
    return env


def command_stream(ck, tmp):
    """The parse COMMAND (not only the library call) on envelopes with nested integrated dependencies, all output forms:
    exit cleanly, in time, with an output whose size stays proportional to the input."""
    import subprocess
    import time
    fails = []
    depths = [2, 8, 14] if not ck.deep else [2, 6, 10, 14, 18]
    for depth in depths:
        data = nested_dependencies(depth)
        for fmt in ("json", "yaml"):
            for hier in (True, False):
                d = os.path.join(tmp, f"cmd{depth}{fmt}{int(hier)}")
                os.makedirs(d, exist_ok=True)
                with open(os.path.join(d, "in.suit"), "wb") as fh:
                    fh.write(data)
                code = ("import sys, resource; resource.setrlimit(resource.RLIMIT_FSIZE, (64 << 20, 64 << 20));"
                        "from suit_generator.cmd_parse import main;"
                        f"main(input_file='in.suit', output_file='out.{fmt}', output_format='{fmt}', parse_hierarchy={hier})")
                t0 = time.time()
                try:
                    p = subprocess.run([core.PY, "-c", code], cwd=d, capture_output=True, text=True, timeout=120, env=dict(os.environ, PYTHONPATH=core.REPO))
                    rc, err = p.returncode, p.stderr[-200:]
                except subprocess.TimeoutExpired:
                    rc, err = "timeout", "no result within 120 s"
                dt = time.time() - t0
                out = os.path.join(d, "out." + fmt)
                size = os.path.getsize(out) if os.path.exists(out) else None
                ck.count("command", (depth, fmt, hier), nontrivial=True, sample={"dependency_nesting": depth, "format": fmt, "hierarchy": hier, "input_bytes": len(data),
                                                                                 "output_bytes": size, "seconds": round(dt, 2)})
                why = None
                if rc != 0:
                    why = f"parse command ended with {rc}: {err}"
                elif size is None:
                    why = "no output written"
                elif size > 400 * len(data) + 65536:
                    why = f"output of {size} bytes for an input of {len(data)} bytes (nesting {depth})"
                elif dt > 60:
                    why = f"{dt:.0f} s for an input of {len(data)} bytes"
                if why:
                    fails.append({"input": {"op": "parse command", "bytes": data.hex(), "output_format": fmt, "parse_hierarchy": hier, "dependency_nesting": depth},
                                  "observed": why, "expected": "a description (or a clean input error) in time and space proportional to the input"})
                shutil.rmtree(d, ignore_errors=True)
                if len(fails) > 3:
                    return fails
    return fails

def replay(path):
    rec = json.load(open(path))
    inp = rec["input"]
    if inp is None:
        return run("quick", rec.get("seed", 0))
    if inp.get("op") == "parse command":
        class _CK:
            deep = False
            def count(self, *a, **k):
                pass
        tmp = tempfile.mkdtemp(prefix="c17r-")
        try:
            fs = [f for f in command_stream(_CK(), tmp) if f["input"]["output_format"] == inp["output_format"] and f["input"]["parse_hierarchy"] == inp["parse_hierarchy"]]
        finally:
            shutil.rmtree(tmp, ignore_errors=True)
        print("REPRODUCED: " + fs[0]["observed"] if fs else "not reproduced on the current tree")
        return 1 if fs else 0
    if "scan" in inp:
        r = core.Check.impl(impl_scan, bytes.fromhex(inp["scan"]))
        print("reject_sharing_tags:", r)
        print("REPRODUCED" if r[0] != "ok" else "not reproduced on the current tree")
        return 1 if r[0] != "ok" else 0
    if "wide" in inp:
        class _CK:
            deep = inp["members"] > 16000
            def count(self, *a, **k):
                pass
        fs = [f for f in scaling_stream(_CK()) if f["input"]["wide"] == inp["wide"]]
        print("REPRODUCED: " + fs[0]["observed"] if fs else "not reproduced on the current tree")
        return 1 if fs else 0
    data = bytes.fromhex(inp["bytes"])
    t0 = time.perf_counter()
    r = interp.run_impl(interp.impl_parse, inp["class"], data) if "class" in inp else interp.run_impl(impl_parse_raw, data)
    print("outcome:", r[1] if r[0] == "exn" else "parsed", f"in {time.perf_counter() - t0:.2f} s")
    bad = r[0] == "exn" and r[1] not in ALLOWED
    print("REPRODUCED" if bad else "not reproduced on the current tree")
    return 1 if bad else 0
