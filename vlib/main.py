import importlib
import os
import sys
import traceback

HERE = os.path.dirname(os.path.abspath(__file__))
sys.path.insert(0, HERE)


def main(argv):
    if not argv:
        print("usage: check <id> [--tier quick|thorough] [--replay file]")
        return 2
    prop = argv[0]
    tier = os.environ.get("VERIF_TIER", "quick")
    replay = None
    i = 1
    while i < len(argv):
        if argv[i] == "--tier":
            tier = argv[i + 1]
            i += 2
        elif argv[i] == "--replay":
            replay = argv[i + 1]
            i += 2
        else:
            i += 1
    seed = int(os.environ.get("VERIF_SEED", "0") or 0)
    mod = importlib.import_module(prop.lower())
    if replay:
        return mod.replay(replay)
    return mod.run(tier, seed)


if __name__ == "__main__":
    try:
        sys.exit(main(sys.argv[1:]))
    except SystemExit:
        raise
    except Exception:  # an infrastructure failure is not a verdict about the property
        traceback.print_exc()
        sys.exit(3)
