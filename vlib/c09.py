"""C09 — signing policy: already-signed action, key match, recursive configuration.

Model: gen/GenSign.v (translator/unit_sign.py).  Theorems: coq/Props/C09.v (lemmas in coq/Cmd/Sign.v, specification coq/Cmd/SignModel.v).
Implementation-side oracle (independent of the model; helpers in vlib/signlib.py):
  * the complete matrix 3 actions x {unsigned, singly signed} x 5 algorithms x {matching, mismatching key type} through the real CLI: exit
    status, presence / absence of the output file, content (identity for skip; digest + exactly one new verifying block for remove-old and
    for unsigned inputs; nothing written when refused);
  * dependency trees up to depth 3 built with the implementation's create, JSON configurations assigning per node key name / key id /
    algorithm / omit-signing / already-signed action / context / scripts with inherited defaults: a logging sign script records every
    sign_envelope call (compared with the calls expected from the configuration by nearest-ancestor inheritance); the output tree is
    walked with an own CBOR reader: unnamed members and all manifests byte-identical, every new block verified with that node's public
    key, omitted / skipped nodes untouched; configurations that must fail (absent / non-envelope dependency, missing key, mismatching
    key, error action on a signed node, ...) must exit non-zero without an output file.
"""
import json
import os
import shutil
import tempfile

import core
import signlib as sl
from signlib import ACTIONS, ALGS, KIDS

EXPECTED = ("error refuses and writes no output; skip returns the envelope unchanged; remove-old leaves the new valid signature as the only one; "
            "a key of the wrong type is refused; recursive signing signs every named, non-omitted node once with its own key and key id and "
            "inherited script / KMS / algorithm / context, leaves unnamed members and all manifests byte-identical, needs no key for omitted "
            "nodes, and fails without output when a named dependency is absent or not an envelope")

WRAPPER = '''"""logging sign script written by the verification harness: records every call, then delegates to the sign script under test"""
import importlib.util, json, os
from suit_generator.suit_sign_script_base import SuitEnvelopeSignerBase
_spec = importlib.util.spec_from_file_location("verif_real_sign_script", {real!r})
_m = importlib.util.module_from_spec(_spec)
_spec.loader.exec_module(_m)


class W(SuitEnvelopeSignerBase):
    def sign_envelope(self, input_envelope, key_name, key_id, algorithm, context, kms_script, already_signed_action):
        with open(os.environ["VERIF_SIGN_LOG"], "a") as fh:
            fh.write(json.dumps({{"script": {ident!r}, "key_name": key_name, "key_id": key_id, "alg": algorithm.value, "context": context,
                                 "kms_script": str(kms_script), "action": already_signed_action.value}}) + "\\n")
        return _m.suit_signer_factory().sign_envelope(input_envelope, key_name, key_id, algorithm, context, kms_script, already_signed_action)


def suit_signer_factory():
    return W()
'''


class World:
    """Scratch material of one run: two key directories with the SAME key names but different keys (contexts A and B), logging
    wrappers W1 / W2 around the sign script under test, a copy of the KMS script, a fake ZEPHYR_BASE tree."""

    def __init__(self, tmp, pems=None):
        self.tmp = tmp
        self.KA = sl.Keys(os.path.join(tmp, "keysA"), n=2) if pems is None else self._load(os.path.join(tmp, "keysA"), pems["A"])
        self.KB = sl.Keys(os.path.join(tmp, "keysB"), n=2) if pems is None else self._load(os.path.join(tmp, "keysB"), pems["B"])
        self.paths = {"@KA@": self.KA.dir, "@KB@": self.KB.dir, "@KAJ@": json.dumps({"keys_directory": self.KA.dir}),
                      "@SIGN@": sl.sign_script(), "@KMS@": sl.kms_script()}
        for ident in ("W1", "W2"):
            p = os.path.join(tmp, ident + "_sign.py")
            with open(p, "w") as fh:
                fh.write(WRAPPER.format(real=sl.sign_script(), ident=ident))
            self.paths["@" + ident + "@"] = p
        k2 = os.path.join(tmp, "kms_copy.py")
        shutil.copy(sl.kms_script(), k2)
        self.paths["@KMS2@"] = k2
        # every signing party keeps its own copy of the KMS script beside its keys: without a context the key directory is the
        # directory of the KMS script, and the copies have the same file name
        for ph, ks in (("@KMSA@", self.KA), ("@KMSB@", self.KB)):
            shutil.copy(sl.kms_script(), os.path.join(ks.dir, "basic_kms.py"))
            self.paths[ph] = os.path.join(ks.dir, "basic_kms.py")
        zb = os.path.join(tmp, "zb", "zephyr")
        ncs = os.path.join(tmp, "zb", "modules", "lib", "suit-generator", "ncs")
        os.makedirs(zb, exist_ok=True)
        os.makedirs(ncs, exist_ok=True)
        with open(os.path.join(ncs, "sign_script.py"), "w") as fh:
            fh.write(WRAPPER.format(real=sl.sign_script(), ident="W3"))
        shutil.copy(sl.kms_script(), os.path.join(ncs, "basic_kms.py"))
        self.paths["@ZB@"] = zb
        self.paths["@W3@"] = zb + "/../modules/lib/suit-generator/ncs/sign_script.py"
        self.paths["@KMS3@"] = zb + "/../modules/lib/suit-generator/ncs/basic_kms.py"

    @staticmethod
    def _load(d, pems):
        from cryptography.hazmat.primitives.serialization import load_pem_private_key
        k = sl.Keys.__new__(sl.Keys)
        from cryptography.hazmat.primitives import serialization
        k.dir, k.keys, k.ser, k.n = d, {}, serialization, 2
        os.makedirs(d, exist_ok=True)
        for name, pem in pems.items():
            key = load_pem_private_key(pem.encode(), None)
            k.add(name, key, *sl.kind_of_key(key))
        return k

    def pems(self):
        out = {}
        for tag, ks in (("A", self.KA), ("B", self.KB)):
            s = ks.ser
            out[tag] = {n: key.private_bytes(s.Encoding.PEM, s.PrivateFormat.PKCS8, s.NoEncryption()).decode() for n, (_, _, key) in ks.keys.items()}
        return out

    def subst(self, o):
        """Materialise the placeholders of a configuration / environment template."""
        if isinstance(o, dict):
            return {k: self.subst(v) for k, v in o.items()}
        if isinstance(o, list):
            return [self.subst(v) for v in o]
        if isinstance(o, str) and o in self.paths:
            return self.paths[o]
        return o

    def keys_of_ctx(self, ctx, kms=None):
        if ctx is None:
            return {"@KMSA@": self.KA, "@KMSB@": self.KB}.get(kms)
        return {"@KA@": self.KA, "@KAJ@": self.KA, "@KB@": self.KB}.get(ctx)

    def table(self):
        rows = []
        for ph, ks in (("@KA@", self.KA), ("@KAJ@", self.KA), ("@KB@", self.KB)):
            for r in ks.table():
                rows.append([self.paths[ph].encode()] + r[1:])
        return rows

    def key_ident(self, ctx, name):
        return self.paths[ctx].encode() + b"/" + name.encode()


# ---------------------------------------------------------------- the matrix: actions x signed? x algorithm x key match
def matrix_stream(ck, tmp, world, envs):
    keys = world.KA
    base = envs[0][0]
    first = sl.lib_single(tmp, base, keys.for_alg("es-384", 1), 77, "es-384", keys.dir, "error")
    if first[0] != "ok":
        return [{"input": {"op": "matrix-setup", "envelope_hex": base.hex()}, "observed": f"first signature refused: {first[1]}", "expected": EXPECTED}]
    signed = first[1]
    combos = [(action, sg, alg, match) for action in ACTIONS for sg in (False, True) for alg in ALGS for match in (True, False)]
    jobs, meta = [], []
    for i, (action, sg, alg, match) in enumerate(combos):
        kn = keys.for_alg(alg, 0) if match else keys.mismatch_for(alg, i)
        kid = KIDS[i % len(KIDS)]
        data = signed if sg else base
        jobs.append((tmp, f"m{i}", data, kn, kid, alg, keys.dir, action, None))
        meta.append((action, sg, alg, match, kn, kid, data))
    # an UNSIGNED input whose digest bytes contain d2 84 (the way a tagged COSE_Sign1 begins): it bears no signature, whatever the action
    import c04
    d284 = c04.digest_with(b"\xd2\x84")
    for j, alg in enumerate(ALGS):
        for action in ACTIONS:
            jobs.append((tmp, f"md{j}{action}", d284, keys.for_alg(alg, 0), 99, alg, keys.dir, action, None))
            meta.append((action, False, alg, True, keys.for_alg(alg, 0), 99, d284))
    # a key replaced under its old identifier: the input is signed with the SAME algorithm and key identifier, by another key
    for j, alg in enumerate(ALGS):
        prev = sl.lib_single(tmp, base, keys.for_alg(alg, 1), 77, alg, keys.dir, "error")
        if prev[0] != "ok":
            continue
        for action in ACTIONS:
            jobs.append((tmp, f"mk{j}{action}", prev[1], keys.for_alg(alg, 0), 77, alg, keys.dir, action, None))
            meta.append((action, True, alg, True, keys.for_alg(alg, 0), 77, prev[1]))
    res = sl.parallel(sl.cli_single, jobs)
    fails, reqs, keep = [], [], []
    for (action, sg, alg, match, kn, kid, data), (rc, out) in zip(meta, res):
        ck.count("matrix", (action, sg, alg, match, kid == 77 and data is not signed and sg, kid == 99), nontrivial=True,
                 sample={"action": action, "input": "singly signed" if sg else "unsigned", "alg": alg, "key": "matching" if match else f"mismatching ({kn})", "via": "cli"})
        why = oracle_single(data, rc == 0, out, keys, kn, alg, kid, action, sg, match)
        lr = sl.lib_single(tmp, data, kn, kid, alg, keys.dir, action)       # in-process: the exception class, for the model comparison
        if not why and ((lr[0] == "ok") != (rc == 0) or (lr[0] == "ok" and rc == 0 and action == "skip" and sg and lr[1] != out)):
            why = f"library call and CLI disagree: {lr[0]} vs exit {rc}"
        if why:
            fails.append(rec_single(keys, data, kn, alg, kid, action, why))
        lout = lr[1] if lr[0] == "ok" else None
        tab = sl.table_from_output(lout, keys, kn, alg) if lout else []
        reqs.append(["sign_single", data, kn.encode(), kid, alg.encode(), keys.dir, action.encode(), keys.table(), tab])
        keep.append(((action, sg, alg, match), ("ok", lout) if lr[0] == "ok" else ("exn", lr[1])))
    for (inp, ires), mr in zip(keep, ck.model(reqs)):
        sl.compare(ck, "GenSign.cli_sign_single (matrix)", {"action": inp[0], "signed": inp[1], "alg": inp[2], "matching_key": inp[3]}, mr, ires)
    return fails


def oracle_single(data, ok, out, keys, kn, alg, kid, action, was_signed, match):
    """The property's verdict for one single-level run (None = as demanded)."""
    refused = (was_signed and action == "error") or (not match and not (was_signed and action == "skip"))
    if refused:
        if ok or out is not None:
            return f"must be refused without output, but exit status ok={ok}, output {'written' if out is not None else 'absent'}"
        return None
    if not ok or out is None:
        return f"must succeed, but ok={ok}, output {'written' if out is not None else 'absent'}"
    if was_signed and action == "skip":
        return None if out == data else "skip: the output differs from the input"
    why, ei, eo = sl.check_frame(data, out)
    if why:
        return why
    try:
        old = ei.wrapper_elements()
    except sl.Bad as e:
        return f"input wrapper: {e}"
    kept = [r for _, r in old]
    if was_signed:      # remove-old: the first old block goes
        idx = next((i for i, (v, _) in enumerate(old) if sl.is_sign1(v)), None)
        kept = kept[:idx] + kept[idx + 1:]
    why = sl.check_new_block(ei, eo, kept, keys, kn, alg, kid)
    if why:
        return why
    n = sum(1 for v, _ in eo.wrapper_elements() if sl.is_sign1(v))
    if n != 1:
        return f"the output bears {n} signature blocks, expected exactly the new one"
    return None


def rec_single(keys, data, kn, alg, kid, action, why):
    s = keys.ser
    pem = keys.keys[kn][2].private_bytes(s.Encoding.PEM, s.PrivateFormat.PKCS8, s.NoEncryption()).decode() if kn in keys.keys else None
    return {"input": {"op": "single-level", "envelope_hex": data.hex(), "key_name": kn, "alg": alg, "key_id": kid, "action": action, "private_key_pem": pem},
            "observed": why, "expected": EXPECTED}


# ---------------------------------------------------------------- already_signed_action directly (translator validation of the loop)
def asa_stream(ck, tmp, world, envs):
    import cbor2
    from suit_generator.cmd_sign import _mutable_envelope
    from suit_generator.suit_sign_script_base import SignatureAlreadyPresentActions
    keys = world.KA
    base = envs[0][0]
    e = cbor2.loads(base)
    digest = cbor2.loads(e.value[2])[0]
    blk = lambda t, s: cbor2.dumps(cbor2.CBORTag(t, [b"\xa1\x01\x26", {}, None, s]))    # noqa: E731
    wrappers = [[digest], [digest, blk(18, b"s1")], [digest, blk(18, b"s1"), blk(18, b"s2")], [digest, 5, blk(18, b"s1")],
                [digest, cbor2.dumps([1, 2]), blk(18, b"s1")], [digest, blk(19, b"x")], [digest, blk(19, b"x"), blk(18, b"s1")],
                [digest, blk(18, b"s1"), blk(19, b"x")], [blk(18, b"s0"), digest]]
    reqs, ires = [], []
    for w in wrappers:
        v = dict(e.value)
        v[2] = cbor2.dumps(w)
        data = cbor2.dumps(cbor2.CBORTag(107, v))
        for action in ACTIONS + ["append"]:
            s, _ = sl.signer()
            s.envelope = _mutable_envelope(cbor2.loads(data))
            s._skip_signing = False

            def call(s=s, action=action):
                s.already_signed_action(SignatureAlreadyPresentActions(action))
                return [cbor2.dumps(s.envelope), bool(s._skip_signing)]
            ires.append(sl.impl(call))
            reqs.append(["sign_asa", data, action.encode()])
            ck.count("asa", (repr(w), action), nontrivial=len(w) > 1, sample={"wrapper_elements": len(w), "action": action})
    for rq, ir, mr in zip(reqs, ires, ck.model(reqs)):
        sl.compare(ck, "GenSign.already_signed_action", {"envelope": sl.short(rq[1]), "action": rq[2].decode()}, mr, ir)
    return []


def keytype_stream(ck, world):
    """_verify_signing_key_type on real keys of many classes, model vs implementation; and the property's verdict for the
    cross product of the four key families with the five algorithms."""
    from cryptography.hazmat.primitives.asymmetric import ec, ed25519, ed448, rsa
    k = sl.kms()
    samples = []
    for c in (ec.SECP256R1(), ec.SECP384R1(), ec.SECP521R1(), ec.SECP224R1(), ec.SECP256K1(), ec.BrainpoolP256R1()):
        try:
            key = ec.generate_private_key(c)
        except Exception:  # noqa: BLE001  (curve not available in this OpenSSL)
            continue
        kind, size = sl.kind_of_key(key)           # a curve other than P-256 / P-384 / P-521: of no supported class (KOther), as in the model
        samples.append((key, 0 if kind == "ec" else 3, size))
    samples += [(ed25519.Ed25519PrivateKey.generate(), 1, 0), (ed448.Ed448PrivateKey.generate(), 2, 0), (rsa.generate_private_key(65537, 1024), 3, 0)]
    reqs, ires, fails = [], [], []
    for key, code, ks in samples:
        for alg in ALGS + ["es-224", "es-512", ""]:
            ir = sl.impl(k._verify_signing_key_type, key, alg)
            ires.append(ir)
            reqs.append(["sign_keytype", code, ks, alg.encode()])
            ck.count("keytype", (code, ks, alg), nontrivial=True, sample={"key": type(key).__name__, "key_size": ks, "alg": alg})
            if alg in ALGS and code == 3 and isinstance(key, ec.EllipticCurvePrivateKey):
                if ir[0] == "ok" and ir[1]:
                    fails.append({"input": {"op": "key-type", "key": "EC key on " + key.curve.name, "key_size": key.key_size, "alg": alg}, "observed": f"{ir}", "expected": "refused"})
            if alg in ALGS and code in (0, 1):
                want = (alg == f"es-{ks}") if code == 0 else alg in ("eddsa", "hash-eddsa")
                if ir != ("ok", want):
                    fails.append({"input": {"op": "key-type", "key": type(key).__name__, "key_size": ks, "alg": alg}, "observed": f"{ir}", "expected": f"{want}"})
    for rq, ir, mr in zip(reqs, ires, ck.model(reqs)):
        sl.compare(ck, "GenSign.verify_signing_key_type", {"kind": rq[1], "key_size": rq[2], "alg": rq[3].decode()}, mr, ir)
    return fails


# ---------------------------------------------------------------- trees
class Node:
    def __init__(self):
        self.children = {}       # dependency name -> Node (envelopes)
        self.payloads = {}       # name -> bytes (not envelopes)
        self.data = None         # the envelope bytes as embedded in the input
        self.presigned = False


def build_tree(ck, world, depth, maxdepth, counter):
    """An envelope (created by the implementation) with integrated payloads and, below maxdepth, integrated dependencies that are
    themselves such envelopes; some are signed before they are embedded."""
    import interp
    rng = ck.rng
    n = Node()
    counter[0] += 1
    seq = counter[0]
    if depth < maxdepth:
        for nm in rng.sample(["#radio", "#app", "dep.suit", "#top", "#sysctrl"], rng.choice([1, 1, 2, 3] if depth < 2 else [0, 1, 2])):
            n.children[nm] = build_tree(ck, world, depth + 1, maxdepth, counter)
    for nm in rng.sample(["#file.bin", "#fw", "http://x/y"], rng.choice([0, 1, 2])):
        n.payloads[nm] = bytes([rng.randrange(128)]) + bytes(rng.randrange(256) for _ in range(rng.choice([0, 1, 22, 23, 99])))
        if rng.random() < 0.35:
            # a payload that READS as a tagged CBOR item (an envelope tag around a number, a COSE_Sign1-looking array, a date): it
            # is a payload all the same — named as a dependency it is "not an envelope", and it is never cut to the item it begins with
            n.payloads[nm] = rng.choice([b"\xd8\x6b\x01", b"\xd2\x84\x40\xa0\xf6\x40", b"\xc1\x00", b"\xd8\x6b\x80", b"\xd9\x03\xe7\xa0"]) + n.payloads[nm]
    man = {"suit-manifest-version": 1, "suit-manifest-sequence-number": seq,
           "suit-common": {"suit-components": [["M", seq]]},
           "suit-manifest-component-id": ["I", {"raw": "%032x" % seq}]}
    top = {"suit-authentication-wrapper": {"SuitDigest": {"suit-digest-algorithm-id": rng.choice(["cose-alg-sha-256", "cose-alg-sha-512", "cose-alg-shake128"])}},
           "suit-manifest": man}
    if rng.random() < 0.4:
        man["suit-text"] = {"suit-digest-algorithm-id": "cose-alg-sha-256"}
        top["suit-text"] = {"en": {"suit-text-manifest-description": "level %d" % depth}}
    if n.payloads:
        top["suit-integrated-payloads"] = {k: v.hex() for k, v in n.payloads.items()}
    if n.children:
        top["suit-integrated-dependencies"] = {k: c.data.hex() for k, c in n.children.items()}
    data = interp.impl_create({"SUIT_Envelope_Tagged": top})
    if rng.random() < 0.3:
        alg = rng.choice(ALGS)
        r = sl.lib_single(world.tmp, data, world.KB.for_alg(alg, 1), 0x99, alg, world.KB.dir, "error", name="pre")
        if r[0] == "ok":
            try:
                signed = any(sl.is_sign1(v) for v, _ in sl.Envelope(r[1]).wrapper_elements())
            except Exception:  # noqa: BLE001
                signed = False
            if signed:
                data, n.presigned = r[1], True
            else:
                # signing an unsigned envelope "succeeded" without adding a signature: a violation in itself
                getattr(world, "presign_failures", None) is None and setattr(world, "presign_failures", [])
                world.presign_failures.append({"input": {"op": "sign single-level (preparing an already-signed dependency)", "envelope": data.hex(), "alg": alg, "key_id": 0x99},
                                               "observed": "the command succeeded but the output carries no signature block", "expected": "exactly one new valid signature"})
    n.data = data
    return n


def gen_config(ck, world, node, depth, inherited_alg, inherited_ctx, root=True):
    """A mostly valid configuration for the tree (placeholders for paths), with per-node keys / algorithms / actions / omit-signing and
    inherited defaults."""
    rng = ck.rng
    c = {}
    alg = inherited_alg
    if rng.random() < (0.7 if root else 0.45):
        alg = rng.choice(ALGS)
        c["alg"] = alg
    ctx = inherited_ctx
    if root or rng.random() < 0.25:
        ctx = rng.choice(["@KA@", "@KA@", "@KAJ@", "@KB@"]) if root else rng.choice(["@KA@", "@KB@"])
        c["context"] = ctx
    omit = rng.random() < 0.2
    if omit:
        c["omit-signing"] = True
    elif rng.random() < 0.2:
        c["omit-signing"] = False
    if not omit or rng.random() < 0.5:
        c["key-name"] = world.keys_of_ctx(ctx).for_alg(alg, rng.choice([0, 1, 3]))
        kid = rng.choice(KIDS + [rng.randrange(2 ** 32)])
        c["key-id"] = hex(kid) if rng.random() < 0.6 else str(kid)
    if node.presigned and not omit:
        c["already-signed-action"] = rng.choice(["skip", "remove-old", "remove-old"])
    elif rng.random() < 0.3:
        c["already-signed-action"] = rng.choice(ACTIONS)
    if not root and rng.random() < 0.2:
        c["sign-script"] = "@W2@"
    if not root and rng.random() < 0.15:
        c["kms-script"] = "@KMS2@"
    deps = {}
    names = list(node.children)
    rng.shuffle(names)
    for nm in names:
        if rng.random() < 0.75:
            deps[nm] = gen_config(ck, world, node.children[nm], depth + 1, alg, ctx, root=False)
    if deps or rng.random() < 0.1:
        c["dependencies"] = deps
    return c


def root_scripts(ck, cfg):
    """How the root learns its scripts: configuration, NCS_SUIT_*_SCRIPT or ZEPHYR_BASE (returns the environment template)."""
    rng = ck.rng
    env = {}
    v = rng.random()
    if v < 0.6:
        cfg["sign-script"] = "@W1@"
    elif v < 0.85:
        env["NCS_SUIT_SIGN_SCRIPT"] = "@W1@"
    else:
        env["ZEPHYR_BASE"] = "@ZB@"
    v = rng.random()
    if v < 0.6:
        cfg["kms-script"] = "@KMS@"
    elif v < 0.85 or "ZEPHYR_BASE" in env and rng.random() < 0.5:
        env["NCS_SUIT_KMS_SCRIPT"] = "@KMS@"
    else:
        env["ZEPHYR_BASE"] = "@ZB@"
    return env


def inject_fault(ck, world, node, cfg):
    """Turn a valid configuration into one that must be refused; returns a description of the fault or None."""
    rng = ck.rng
    nodes = []

    def walk(n, c, path):
        nodes.append((n, c, path))
        for nm, dc in c.get("dependencies", {}).items():
            if nm in n.children:
                walk(n.children[nm], dc, path + [nm])
    walk(node, cfg, [])
    n, c, path = rng.choice(nodes)
    kind = rng.choice(["absent", "payload", "nokey", "nokey", "nokeyid", "mismatch", "mismatch", "error-signed", "deps-list", "bad-alg"])
    if kind in ("nokey", "nokeyid", "mismatch") and len(nodes) > 1 and rng.random() < 0.7:
        n, c, path = rng.choice(nodes[1:])          # below the root: where a wrongly inherited key would go unnoticed
    if kind == "absent":
        c.setdefault("dependencies", {})["#missing"] = {"omit-signing": True}
    elif kind == "payload":
        if not n.payloads:
            return None
        c.setdefault("dependencies", {})[next(iter(n.payloads))] = {"omit-signing": True}
    elif kind in ("nokey", "nokeyid"):
        if c.get("omit-signing") or "key-name" not in c:
            return None
        del c["key-name" if kind == "nokey" else "key-id"]
    elif kind == "mismatch":
        if c.get("omit-signing") or "key-name" not in c:
            return None
        if n.presigned and c.get("already-signed-action") == "skip":
            return None
        c["key-name"] = "k_rsa" if rng.random() < 0.3 else rng.choice(["k0_es256", "k0_es384", "k0_es521", "k0_ed"])
        # only a fault if the class really differs from the resolved algorithm; decided by the expectation walk
    elif kind == "error-signed":
        if not n.presigned or c.get("omit-signing") or "key-name" not in c:
            return None
        c["already-signed-action"] = "error"
    elif kind == "deps-list":
        c["dependencies"] = []
    elif kind == "bad-alg":
        c["alg"] = "es-512"
    return {"kind": kind, "at": path}


# the expectation: an independent reading of the documented behaviour (nearest-ancestor inheritance, post-order signing)
def expect(world, node, cfg, inh, calls, root=True):
    """Returns a plan {"fail": reason} | {"omit":.., "sign": {...} | None, "deps": {name: plan}}; appends the expected sign_envelope
    calls (post-order) to `calls`."""
    inh = dict(inh)
    for k_cfg, k_inh in (("sign-script", "sign"), ("kms-script", "kms"), ("alg", "alg"), ("context", "ctx")):
        if k_cfg in cfg:
            inh[k_inh] = cfg[k_cfg]
    omit = bool(cfg.get("omit-signing", False))
    if not omit and ("key-name" not in cfg or "key-id" not in cfg):
        return {"fail": "key-name / key-id missing on a node that is to be signed"}
    if inh["sign"] is None or inh["kms"] is None:
        return {"fail": "no script"}
    if inh["alg"] not in ALGS:
        return {"fail": "unknown algorithm"}
    action = cfg.get("already-signed-action", "error")
    if action not in ACTIONS + ["append"]:
        return {"fail": "unknown action"}
    plan = {"omit": omit, "deps": {}, "sign": None}
    deps = cfg.get("dependencies", {})
    if not isinstance(deps, dict):
        return {"fail": "dependencies is not an object"}
    for nm, dc in deps.items():
        if nm not in node.children:
            return {"fail": f"dependency {nm} absent or not an envelope"}
        p = expect(world, node.children[nm], dc, inh, calls, root=False)
        if "fail" in p:
            return p
        plan["deps"][nm] = p
    if not omit:
        kid = int(cfg["key-id"], 0)
        call = {"script": inh["sign"], "key_name": cfg["key-name"], "key_id": kid, "alg": inh["alg"], "context": inh["ctx"], "kms_script": inh["kms"], "action": action}
        calls.append(call)
        ks = world.keys_of_ctx(inh["ctx"], inh["kms"])
        plan["sign"] = dict(call, keys=ks)
        if node.presigned and action == "error":
            plan["late_fail"] = "already signed, action error"
        elif node.presigned and action == "skip":
            plan["sign"]["mode"] = "skip"
        else:
            plan["sign"]["mode"] = "remove-old" if node.presigned else "append"
            if ks is None or cfg["key-name"] not in ks.keys:
                plan["late_fail"] = "key not found"
            else:
                kind, size, _ = ks.keys[cfg["key-name"]]
                a = inh["alg"]
                okk = (kind == "ec" and a == f"es-{size}") or (kind in ("ed25519", "ed448") and a in ("eddsa", "hash-eddsa"))
                if not okk:
                    plan["late_fail"] = "key type does not match the algorithm"
    return plan


def first_failure(plan):
    """Signing-phase failures happen in post-order; any of them makes the command fail."""
    if "fail" in plan:
        return plan["fail"]
    for p in plan["deps"].values():
        f = first_failure(p)
        if f:
            return f
    return plan.get("late_fail")


def check_tree(inp, out, plan, path="root"):
    """Walk input and output envelope with the own reader.  None = as the property demands."""
    try:
        ei, eo = sl.Envelope(inp), sl.Envelope(out)
    except Exception as e:  # noqa: BLE001
        return f"{path}: not a tagged map ({e})"
    if ei.tag != eo.tag or [repr(k) for k in ei.keys()] != [repr(k) for k in eo.keys()]:
        return f"{path}: tag / keys changed: {ei.keys()} -> {eo.keys()}"
    if inp[:ei.entries[0][2]] != out[:eo.entries[0][2]]:
        return f"{path}: envelope head changed"
    for a, b in zip(ei.entries, eo.entries):
        if inp[a[2]:a[3]] != out[b[2]:b[3]]:
            return f"{path}: key encoding changed at {a[0]!r}"
        if a[0] == 2 and not isinstance(a[0], bool):
            continue
        if isinstance(a[0], str) and a[0] in plan["deps"]:
            if not isinstance(b[1], bytes) or out[b[3]:b[4]] != sl.bstr(b[1]):
                return f"{path}: dependency {a[0]} is not re-embedded as a byte string"
            why = check_tree(a[1], b[1], plan["deps"][a[0]], path + "/" + a[0])
            if why:
                return why
        elif inp[a[3]:a[4]] != out[b[3]:b[4]]:
            return f"{path}: the value of {a[0]!r} (not named in the configuration{', the manifest' if a[0] == 3 else ''}) changed"
    wi, wo = ei.get(2), eo.get(2)
    sg = plan["sign"]
    if sg is None or sg.get("mode") == "skip":
        return None if inp[wi[3]:wi[4]] == out[wo[3]:wo[4]] else f"{path}: the wrapper of an omitted / skipped node changed"
    old = ei.wrapper_elements()
    kept = [r for _, r in old]
    if sg["mode"] == "remove-old":
        idx = next((i for i, (v, _) in enumerate(old) if sl.is_sign1(v)), None)
        kept = kept[:idx] + kept[idx + 1:]
    why = sl.check_new_block(ei, eo, kept, sg["keys"], sg["key_name"], sg["alg"], sg["key_id"])
    return f"{path}: {why}" if why else None


def collect_rows(world, out, plan, rows):
    """Oracle-table rows for the model: the (message, signature) of the last block of every signed node of the output tree."""
    try:
        eo = sl.Envelope(out)
        els = eo.wrapper_elements()
    except Exception:  # noqa: BLE001
        return
    sg = plan.get("sign")
    if sg and sg.get("mode") in ("append", "remove-old") and len(els) > 1 and isinstance(els[0][0], bytes) and isinstance(els[-1][0], bytes):
        try:
            prot, sig = sl.read_block(els[-1][0])
            msg = sl.sig_structure(prot, els[0][0])
            kn = world.key_ident(sg["context"], sg["key_name"])
            alg = sg["alg"]
            rows.append([kn, msg, 0, sig[:len(sig) // 2], sig[len(sig) // 2:]] if alg in sl.KEY_SIZE else [kn, msg, 1 if alg == "eddsa" else 2, sig, b""])
        except Exception:  # noqa: BLE001
            pass
    for nm, p in plan.get("deps", {}).items():
        e = eo.get(nm)
        if e is not None and isinstance(e[1], bytes):
            collect_rows(world, e[1], p, rows)


def cfg_to_cbor(world, cfg):
    """The configuration as the model's request wants it: JSON keys, key-id parsed, paths materialised."""
    out = {}
    for k, v in cfg.items():
        if k == "key-id":
            out[k] = int(v, 0)
        elif k == "dependencies":
            out[k] = {n: cfg_to_cbor(world, c) for n, c in v.items()} if isinstance(v, dict) else v
        else:
            out[k] = world.subst(v)
    return out


def run_tree(ck, world, tmp, node, cfg, envt, via_cli, name):
    """Run one configuration on the implementation; returns (ok, out, log, exception name | None)."""
    log = os.path.join(tmp, name + ".log")
    if os.path.exists(log):
        os.remove(log)
    real_cfg, real_env = world.subst(cfg), world.subst(envt)
    if via_cli:
        rc, out = sl.cli_recursive(tmp, name, node.data, real_cfg, dict(real_env, VERIF_SIGN_LOG=log))
        ok, exn = rc == 0, None
    else:
        os.environ["VERIF_SIGN_LOG"] = log
        try:
            r = sl.lib_recursive(tmp, node.data, real_cfg, name=name, env=real_env)
        finally:
            os.environ.pop("VERIF_SIGN_LOG", None)
        ok, out, exn = r[0] == "ok", (r[1] if r[0] == "ok" else r[2]), (None if r[0] == "ok" else r[1])
    calls = [json.loads(ln) for ln in open(log)] if os.path.exists(log) else []
    return ok, out, calls, exn


def tree_verdict(world, node, cfg, ok, out, calls):
    """The property's verdict for one recursive run."""
    exp_calls = []
    plan = expect(world, node, cfg, {"sign": cfg.get("sign-script") or "@ENV@", "kms": cfg.get("kms-script") or "@ENV@", "alg": "eddsa", "ctx": None}, exp_calls)
    failure = first_failure(plan)
    if failure:
        if ok or out is not None:
            return f"must fail without output ({failure}), but ok={ok}, output {'written' if out is not None else 'absent'}", plan
        return None, plan
    if not ok or out is None:
        return f"must succeed, but ok={ok}, output {'written' if out is not None else 'absent'}", plan
    return check_tree(node.data, out, plan), plan


def norm_calls(world, cfg, envt, calls_expected):
    """Expected calls with placeholders resolved the way the log records them."""
    env_sign = "W1" if envt.get("NCS_SUIT_SIGN_SCRIPT") else "W3"
    env_kms = world.paths["@KMS@"] if envt.get("NCS_SUIT_KMS_SCRIPT") else world.paths["@KMS3@"]
    out = []
    for c in calls_expected:
        d = dict(c)
        d["script"] = {"@W1@": "W1", "@W2@": "W2", "@ENV@": env_sign}.get(c["script"], c["script"])
        d["kms_script"] = env_kms if c["kms_script"] == "@ENV@" else world.paths.get(c["kms_script"], c["kms_script"])
        d["context"] = world.paths.get(c["context"], c["context"])
        out.append(d)
    return out


def tree_stream(ck, world, tmp, n_trees, faulty):
    rng = ck.rng
    fails, reqs, keep = [], [], []
    cli_jobs = []
    counter = [0]
    for i in range(n_trees):
        node = build_tree(ck, world, 0, rng.choice([1, 2, 2, 3, 3]), counter)
        cfg = gen_config(ck, world, node, 0, "eddsa", None)
        envt = root_scripts(ck, cfg)
        fault = inject_fault(ck, world, node, cfg) if faulty else None
        name = f"{'bad' if faulty else 'tree'}{i}"
        ok, out, calls, exn = run_tree(ck, world, tmp, node, cfg, envt, False, name)
        why, plan = tree_verdict(world, node, cfg, ok, out, calls)
        exp_calls = []
        expect(world, node, cfg, {"sign": cfg.get("sign-script") or "@ENV@", "kms": cfg.get("kms-script") or "@ENV@", "alg": "eddsa", "ctx": None}, exp_calls)
        failure = first_failure(plan)
        if not why and not failure and calls != norm_calls(world, cfg, envt, exp_calls):
            why = f"sign_envelope calls {calls} differ from the calls expected from the configuration {norm_calls(world, cfg, envt, exp_calls)}"
        depth = tree_depth(node)
        ck.count("trees-rejected" if failure else "trees", (i, json.dumps(cfg, sort_keys=True)), nontrivial=True,
                 sample={"depth": depth, "nodes": count_nodes(node), "configuration": cfg, "environment": envt, "fault": fault, "expected": failure or "signed"})
        if why:
            fails.append(rec_tree(world, node, cfg, envt, why, "recursive"))
        rows = []
        if ok and out:
            collect_rows(world, out, plan if "fail" not in plan else {"deps": {}}, rows)
        reqs.append(["sign_recursive", node.data, cfg_to_cbor(world, cfg), [[k.encode(), v.encode()] for k, v in world.subst(envt).items()], world.table(), rows])
        mcalls = [[c["key_name"], c["key_id"], {"W1": world.paths["@W1@"], "W2": world.paths["@W2@"], "W3": world.paths["@W3@"]}[c["script"]], c["kms_script"], c["alg"], c["context"], c["action"]]
                  for c in calls]
        keep.append((cfg, ("ok", out, mcalls) if ok else ("exn", exn)))
        if i % 4 == 0:
            cli_jobs.append((node, cfg, envt, name + "c"))
    for (cfg, ires), mr in zip(keep, ck.model(reqs)):
        if mr[0] == "ok":
            o, tr = mr[1]
            mr = ("ok", o, [[t[1].decode() if t[1] is not None else None, t[2], t[3].decode(), t[4].decode(), t[5].decode(), t[6].decode() if t[6] is not None else None, t[7].decode()] for t in tr])
        sl.compare(ck, "GenSign.cli_sign_recursive", {"configuration": cfg}, mr, ires)
    # a sample through the real CLI
    res = sl.parallel(lambda node, cfg, envt, name: run_tree(ck, world, tmp, node, cfg, envt, True, name), cli_jobs, workers=8)
    for (node, cfg, envt, name), (ok, out, calls, _) in zip(cli_jobs, res):
        why, plan = tree_verdict(world, node, cfg, ok, out, calls)
        ck.count("trees-cli", (name,), nontrivial=True, sample={"configuration": cfg, "via": "python -m suit_generator.cli sign recursive"})
        if why:
            fails.append(rec_tree(world, node, cfg, envt, why, "cli recursive"))
    return fails


def party_config(ck, cfg, kms, root=True, root_ctx=False):
    """gen_config's configuration for signing parties that keep script and keys together: every node names the KMS script of its party
    (or inherits it) and there is no context — or (root_ctx) the root names a key directory and nodes below write `context: null`,
    which is not 'inherit' but 'the default store of my KMS script'"""
    c = {k: v for k, v in cfg.items() if k not in ("context", "kms-script", "dependencies")}
    mine = kms
    if root or ck.rng.random() < 0.6:
        mine = "@KMSA@" if ((root and not root_ctx) or ck.rng.random() < 0.4) else "@KMSB@"
        c["kms-script"] = mine
    if root_ctx:
        if root:
            c["context"] = "@KA@"
        elif ck.rng.random() < 0.7:
            c["context"] = None
    if "dependencies" in cfg:
        c["dependencies"] = {n: party_config(ck, d, mine, False, root_ctx) for n, d in cfg["dependencies"].items()} if isinstance(cfg["dependencies"], dict) else cfg["dependencies"]
    return c


def party_stream(ck, world, tmp, n_trees):
    """No context: the key directory of a node is the directory of ITS KMS script; the parties' scripts have the same file name."""
    fails = []
    counter = [0]
    for i in range(n_trees):
        node = build_tree(ck, world, 0, ck.rng.choice([2, 2, 3]), counter)
        cfg = party_config(ck, gen_config(ck, world, node, 0, "eddsa", "@KA@"), None, root_ctx=(i % 2 == 1))
        cfg["sign-script"] = "@W1@"
        via_cli = i % 4 == 3
        ok, out, calls, exn = run_tree(ck, world, tmp, node, cfg, {}, via_cli, f"party{i}")
        why, plan = tree_verdict(world, node, cfg, ok, out, calls)
        exp_calls = []
        expect(world, node, cfg, {"sign": cfg.get("sign-script"), "kms": cfg.get("kms-script"), "alg": "eddsa", "ctx": None}, exp_calls)
        failure = first_failure(plan)
        if not why and not failure and calls != norm_calls(world, cfg, {}, exp_calls):
            why = f"sign_envelope calls {calls} differ from the calls expected from the configuration {norm_calls(world, cfg, {}, exp_calls)}"
        ck.count("parties", (i, json.dumps(cfg, sort_keys=True)), nontrivial=True,
                 sample={"depth": tree_depth(node), "nodes": count_nodes(node), "configuration": cfg, "via": "cli" if via_cli else "lib", "expected": failure or "signed"})
        if why:
            fails.append(rec_tree(world, node, cfg, {}, why, "cli recursive" if via_cli else "recursive"))
    return fails


def tree_depth(n):
    return 0 if not n.children else 1 + max(tree_depth(c) for c in n.children.values())


def count_nodes(n):
    return 1 + sum(count_nodes(c) for c in n.children.values())


def node_to_json(n):
    return {"data_hex": n.data.hex(), "presigned": n.presigned, "payloads": sorted(n.payloads), "children": {k: node_to_json(c) for k, c in n.children.items()}}


def node_from_json(j):
    n = Node()
    n.data, n.presigned = bytes.fromhex(j["data_hex"]), j["presigned"]
    n.payloads = {k: b"" for k in j["payloads"]}
    n.children = {k: node_from_json(c) for k, c in j["children"].items()}
    return n


def rec_tree(world, node, cfg, envt, why, op):
    return {"input": {"op": op, "tree": node_to_json(node), "configuration": cfg, "environment": envt, "keys_pem": world.pems(),
                      "note": "placeholders @KA@ @KB@ @KAJ@ (key directories / JSON context), @W1@ @W2@ (logging wrappers of the sign script), @KMS@ @KMS2@ @KMSA@ @KMSB@ (the parties' copies of the KMS script beside their keys) @ZB@ are materialised at run time"},
            "observed": why, "expected": EXPECTED}


# ---------------------------------------------------------------- corpus: regression witnesses of the fixed findings
def corpus_stream(ck, world, tmp):
    import c04
    fails = []
    root = Node()
    root.data = c04.CORPUS_ENVELOPE
    e = sl.Envelope(root.data)
    for nm in ("#radio", "#application"):
        root.children[nm] = Node()
        root.children[nm].data = e.get(nm)[1]
    # F1: recursive signing failed on every envelope (the tagged map is immutable under cbor2 >= 6): the test-suite's configuration shape
    cfg1 = {"key-name": "k0_ed", "key-id": "0x4000AA00", "alg": "eddsa", "context": "@KA@", "sign-script": "@W1@", "kms-script": "@KMS@",
            "omit-signing": False, "already-signed-action": "error",
            "dependencies": {"#radio": {"key-name": "k1_ed", "key-id": "0x40032100", "alg": "hash-eddsa", "already-signed-action": "skip"},
                             "#application": {"key-name": "k0_es256", "key-id": "0x40022100", "alg": "es-256"}}}
    # F7: omit-signing without key-name / key-id raised KeyError
    cfg2 = {"omit-signing": True, "sign-script": "@W1@", "kms-script": "@KMS@", "context": "@KA@"}
    cfg3 = {"omit-signing": True, "sign-script": "@W1@", "kms-script": "@KMS@", "context": "@KA@",
            "dependencies": {"#radio": {"omit-signing": True}, "#application": {"key-name": "k0_ed", "key-id": "1"}}}
    for tag, cfg in (("F1", cfg1), ("F7", cfg2), ("F7 nested", cfg3)):
        for via_cli in (False, True):
            ok, out, calls, exn = run_tree(ck, world, tmp, root, cfg, {}, via_cli, "corpus")
            why, plan = tree_verdict(world, root, cfg, ok, out, calls)
            if not why and tag == "F7" and out != root.data:
                why = "omit-signing at the root without dependencies: the output differs from the input"
            ck.count("corpus", (tag, via_cli), nontrivial=True, sample={"witness": tag, "configuration": cfg, "via": "cli" if via_cli else "cmd_sign.main"})
            if why:
                fails.append(rec_tree(world, root, cfg, {}, f"{tag} regression: {why}" + (f" ({exn})" if exn else ""), "cli recursive" if via_cli else "recursive"))
    return fails


# ---------------------------------------------------------------- the check
def run(tier, seed):
    ck = core.Check("C09", tier, seed, runs=sl.RUNS, units=sl.UNITS)
    ck.assumptions = [
        "signature primitives and the key store (context, key name) -> (class of the key, key) are abstract functions; remove_old has the "
        "premise verify (pub k) m (sign k m) = true; the implementation-side oracle verifies with cryptography / pycryptodome",
        "the dynamic import of sign / KMS scripts, argparse, json.load, int(key-id, 0) and os.environ are not modelled: the configuration is the "
        "parsed JSON object (dependency names pairwise different: cfg_ok), the environment a function name -> value",
        "the sign script called by recursive signing is an arbitrary function in recursive_signs_named / omit_needs_no_key / bad_dependency_fails_first; "
        "unnamed_untouched / manifests_identical assume only that it changes nothing but the entry under key 2 (proved for the NCS script)",
        "remove-old removes the FIRST old signature block only (Python list.remove after break); the property quantifies over unsigned and singly "
        "signed inputs, for which that is all of them (theorem remove_old states the general behaviour)",
        "key classes are what the tool distinguishes: EC by key size, Ed25519/Ed448, other; a secp256k1 or brainpoolP256r1 key has size 256 and is "
        "accepted for es-256 (observation, see notes/C09.md)",
        "envelopes whose top level is not tag(map) are declined by the model (Unsupported) and not generated",
    ]
    ck.prepare()
    tmp = tempfile.mkdtemp(prefix="c09-")
    failing = []
    try:
        world = World(tmp)
        envs = sl.make_envelopes(ck, tmp, 2, max_depth=1)
        failing += corpus_stream(ck, world, tmp)
        failing += matrix_stream(ck, tmp, world, envs)
        failing += asa_stream(ck, tmp, world, envs)
        failing += keytype_stream(ck, world)
        failing += tree_stream(ck, world, tmp, 1500 if ck.thorough else 300 if ck.deep else 40, False)
        failing += tree_stream(ck, world, tmp, 600 if ck.thorough else 200 if ck.deep else 40, True)
        failing += party_stream(ck, world, tmp, 200 if ck.thorough else 60 if ck.deep else 12)
        failing += getattr(world, "presign_failures", [])[:3]
        ck.cov["rule"] = (
            "streams: corpus (regression witnesses F1: recursive signing of the test-suite's root envelope; F7: omit-signing without key-name / key-id, at the "
            "root and nested; library and CLI), matrix (COMPLETE: 3 actions x {unsigned, singly signed} x 5 algorithms x {matching, mismatching key type} = 60 "
            "combinations through the real CLI and in-process), asa (already_signed_action on wrappers with 0..2 signature blocks, non-bytes and non-COSE "
            "elements), keytype (_verify_signing_key_type on real keys: P-224/256/384/521, secp256k1, Ed25519, Ed448, RSA x algorithm names), trees (envelope "
            "trees of depth 1..3 built with create — integrated payloads, severed text, some members signed beforehand — with generated configurations: own "
            "keys per node, algorithms / contexts / scripts inherited or overridden, omit-signing with and without keys, actions; scripts from the configuration, "
            "NCS_SUIT_*_SCRIPT or ZEPHYR_BASE), trees-rejected (one injected fault: absent dependency, payload named as dependency, missing key-name / key-id, "
            "mismatching or unsupported key, error on a signed node, dependencies not an object, unknown algorithm), trees-cli (every 4th tree through the real "
            "CLI).  Every case runs on the implementation and on the extracted regenerated model (output file, calls, exception compared) and through the "
            "independent oracle (expected calls by nearest-ancestor inheritance vs the log of a wrapper sign script; own CBOR reader walk: everything unnamed "
            "byte-identical, each new block verified with the node's public key; absence of the output file on failure).  distinct by (stream, input)")
        return ck.decide(failing, search=lambda: search(ck, world, tmp, envs))
    finally:
        shutil.rmtree(tmp, ignore_errors=True)


def search(ck, world, tmp, envs):
    """Step 6: an obligation broke — sweep the implementation with the oracle over a bigger space."""
    fails = matrix_stream(ck, tmp, world, envs[::-1])
    if not fails:
        fails += tree_stream(ck, world, tmp, 150, False)
    if not fails:
        fails += tree_stream(ck, world, tmp, 150, True)
    return fails[:3]


def replay(path):
    recd = json.load(open(path))
    inp = recd["input"]
    if inp is None:
        print(f"replay names the obligation {recd.get('obligation')} that no longer checks; re-run ./check C09")
        return run("quick", recd.get("seed", 0))
    tmp = tempfile.mkdtemp(prefix="c09r-")
    try:
        why = None
        if inp["op"] == "single-level":
            keys = sl.Keys(os.path.join(tmp, "keys"), n=1)
            if inp.get("private_key_pem"):
                from cryptography.hazmat.primitives.serialization import load_pem_private_key
                key = load_pem_private_key(inp["private_key_pem"].encode(), None)
                keys.add(inp["key_name"], key, *sl.kind_of_key(key))
            data = bytes.fromhex(inp["envelope_hex"])
            rc, out = sl.cli_single(tmp, "replay", data, inp["key_name"], inp["key_id"], inp["alg"], keys.dir, inp["action"])
            was_signed = any(sl.is_sign1(v) for v, _ in sl.Envelope(data).wrapper_elements())
            kind, ks, _ = keys.keys[inp["key_name"]]
            a = inp["alg"]
            match = (kind == "ec" and a == f"es-{ks}") or (kind in ("ed25519", "ed448") and a in ("eddsa", "hash-eddsa"))
            why = oracle_single(data, rc == 0, out, keys, inp["key_name"], a, inp["key_id"], inp["action"], was_signed, match)
        elif inp["op"] in ("recursive", "cli recursive"):
            world = World(tmp, pems=inp["keys_pem"])
            node = node_from_json(inp["tree"])
            ck = type("R", (), {})()
            ok, out, calls, exn = run_tree(ck, world, tmp, node, inp["configuration"], inp["environment"], inp["op"].startswith("cli"), "replay")
            why, plan = tree_verdict(world, node, inp["configuration"], ok, out, calls)
            if not why and not first_failure(plan):
                exp_calls = []
                cfg = inp["configuration"]
                expect(world, node, cfg, {"sign": cfg.get("sign-script") or "@ENV@", "kms": cfg.get("kms-script") or "@ENV@", "alg": "eddsa", "ctx": None}, exp_calls)
                if calls != norm_calls(world, cfg, inp["environment"], exp_calls):
                    why = f"sign_envelope calls {calls} differ from the expected calls"
        elif inp["op"].startswith("sign single-level (preparing"):
            keys = sl.Keys(os.path.join(tmp, "keys"), n=2)
            data = bytes.fromhex(inp["envelope"])
            r = sl.lib_single(tmp, data, keys.for_alg(inp["alg"], 1), inp["key_id"], inp["alg"], keys.dir, "error", name="pre")
            signed = False
            if r[0] == "ok" and r[1] is not None:
                try:
                    signed = any(sl.is_sign1(v) for v, _ in sl.Envelope(r[1]).wrapper_elements())
                except Exception:  # noqa: BLE001
                    signed = False
            why = None if (r[0] != "ok" or signed) else "the command succeeded but the output carries no signature block"
        elif inp["op"] == "key-type":
            print("key-type cases are regenerated by ./check C09")
            return run("quick", recd.get("seed", 0))
        if why:
            print("REPRODUCED:", why)
            return 1
        print("not reproduced on the current tree")
        return 0
    finally:
        shutil.rmtree(tmp, ignore_errors=True)
